/-
specjudge — evaluates the *Spec* predicates the property theorems are stated with on concrete
observed behaviour.  Imports Spec only (plus the wire helpers), so it still builds when the
generated or hand-written model of the code does not.
-/
import Switcher.Spec.Frame
import Switcher.Spec.Devices
import Switcher.Spec.Days
import Switcher.Spec.Clock
import Switcher.Spec.Layout
import Switcher.Spec.Faults
import Switcher.Spec.Replies
import Switcher.Spec.Broadcast
import Switcher.Spec.Zone
import Switcher.Spec.NextRun
import Switcher.Spec.IrSpec
import Switcher.Model.Wire
open Spec Wire

def csvNats (s : String) : List Nat := if s == "-" then [] else (s.splitOn ",").filterMap (·.toNat?)
def showNats (l : List Nat) : String := if l.isEmpty then "-" else ",".intercalate (l.map toString)

def parseOp : List String → Option Op
  | ["login1"] => some .login1
  | ["login2"] => some .login2
  | ["getstate1"] => some .getState1
  | ["getstate2"] => some .getState2
  | ["getschedules"] => some .getSchedules
  | ["stop"] => some .stop
  | ["control", on, m] => do pure (.control (on == "1") (← nat? m))
  | ["autooff", s] => do pure (.setAutoOff (← nat? s))
  | ["setname", chars, u] => do pure (.setName (← nat? chars) (← bytesOfHex? u))
  | ["delsched", slot] => do pure (.deleteSchedule (← nat? slot))
  | ["createsched", mask, a, b] => do pure (.createSchedule (← nat? mask) (← nat? a) (← nat? b))
  | ["setpos", p] => do pure (.setPosition (← nat? p))
  | ["breezecmd", payload] => do pure (.breezeCommand (← bytesOfHex? payload))
  | ["breezestatus", st, md, t, f, w] => do pure (.breezeStatus (← nat? st) (← nat? md) (← nat? t) (← nat? f) (← nat? w))
  | _ => none

def tenthsS (n : Nat) : String := s!"{n / 10}.{n % 10}"

def parseCommon : List String → Option Common
  | [id, key, ip, mac, name] => do
    pure { id := ← bytesOfHex? id, key := ← nat? key, ip := ← bytesOfHex? ip, mac := ← bytesOfHex? mac, name := ← text? name }
  | _ => none

def parseT1 : List String → Option Type1
  | tn :: code :: heater :: on :: power :: rem :: auto :: rest => do
    pure { c := ← parseCommon rest, typeName := tn, code := ← bytesOfHex? code, heater := heater == "1", on := on == "1",
           power := ← nat? power, remaining := ← nat? rem, autoShutdown := ← nat? auto }
  | _ => none

def parseSh : List String → Option ShutterB
  | tn :: code :: pos :: dir :: rest => do
    pure { c := ← parseCommon rest, typeName := tn, code := ← bytesOfHex? code, position := ← nat? pos, direction := ← nat? dir }
  | _ => none

def parseTh : List String → Option ThermoB
  | tn :: code :: on :: mode :: fan :: swing :: temp :: target :: remote :: rest => do
    pure { c := ← parseCommon rest, typeName := tn, code := ← bytesOfHex? code,
           t := { on := on == "1", mode := ← nat? mode, fan := ← nat? fan, swing := swing == "1", tempTenths := ← nat? temp,
                  target := ← nat? target, remote := ← bytesOfHex? remote } }
  | _ => none

def parseZone (tok : String) : Option Zone := do
  let body := (tok.drop 2).toString
  match body.splitOn ";" with
  | b :: ts =>
    let base ← int? b
    let trans ← ts.mapM (fun t => match t.splitOn ":" with
      | [a, o] => do pure ((← int? a), (← int? o))
      | _ => none)
    pure { base, trans }
  | [] => none

def two (n : Int) : String := (if n < 10 then "0" else "") ++ toString n

/-- `ir=<u:id>,<onofftype>,<u:key>/<u:para>/<u:hex>,…` -/
def parseIr (tok : String) : Option (List Char × Int × List IrEntry) := do
  let body := (tok.drop 3).toString
  match body.splitOn "," with
  | idT :: onT :: waves =>
    let id ← text? idT
    let on ← int? onT
    let ws ← waves.mapM (fun w => match w.splitOn "/" with
      | [k, p, h] => do pure { key := ← text? k, para := ← text? p, hexCode := ← text? h : IrEntry }
      | _ => none)
    pure (id, on, ws)
  | _ => none

def judge : List String → String
  | ["sig", hx] =>                      -- the protocol's four signature bytes of a byte string
    match bytesOfHex? hx with
    | some bs => hexOfBytes (sigBytes bs)
    | none => "bad-arg"
  | ["crc", init, hx] =>
    match bytesOfHex? hx, nat? init with
    | some bs, some i => toString (crc16 i bs)
    | _, _ => "bad-arg"
  | ["wf", hx] =>                       -- C01: WellFormedFrame
    match bytesOfHex? hx with
    | some bs => if wellFormedB bs then "1" else "0"
    | none => "bad-arg"
  | ["c19accept", cls, catOfType, observed] =>   -- class accepts the type iff the type's category is the class's
    match categoryOfClass cls with
    | some cat => if (observed == "1") == (catOfType == cat) then "1" else "0"
    | none => "bad-arg"
  | ["c19ports", ptype, udp, tcp] =>              -- category ports are those of the protocol type
    match nat? ptype, nat? udp, nat? tcp with
    | some p, some u, some c => if portsOfProtocol p == some (u, c) then "1" else "0"
    | _, _, _ => "bad-arg"
  | ["c19codes", codes] =>                        -- model codes: two bytes each, pairwise distinct
    let cs := codes.splitOn ","
    if cs.all isHex4 && cs.eraseDups.length == cs.length then "1" else "0"
  | ["c12enc", form, days, observed] =>          -- C12 encoding: mask of the set, two digits; reject empty / duplicates
    let l := csvNats days
    let mustRaise := l.isEmpty || (form != "single" && form != "set" && !decide l.Nodup)
    if mustRaise then (if observed == "raise" then "1" else "0")
    else if observed == String.ofList (hex2 (maskOf l)) then "1" else "0"
  | ["c12dec", n, observed] =>                    -- C12 decoding: exactly the days whose bit is set; reject outside 2..254
    match int? n with
    | some v =>
      if 2 ≤ v ∧ v ≤ 254 then (if observed == showNats (daysOfMask v.toNat) then "1" else "0")
      else (if observed == "raise" then "1" else "0")
    | none => "bad-arg"
  | ["c14", sm, em, observed] =>                  -- C14: duration text of (end - start) mod 24 h
    match nat? sm, nat? em, text? observed with
    | some a, some b, some t => if a < 1440 && b < 1440 && t == durationText (duration a b) then "1" else "0"
    | _, _, _ => "bad-arg"
  | ["hhmm", m] => match nat? m with
    | some v => String.ofList (hhmm v)
    | none => "bad-arg"
  | "c02" :: sid :: ts :: did :: key :: frame :: opToks =>   -- C02: the frame is the reference frame of this op
    match parseOp opToks, bytesOfHex? frame with
    | some op, some f =>
      if !op.accepted then "not-accepted"
      else if refWire op sid.toList ts.toList did.toList key.toList == some f then "1" else "0"
    | _, _ => "bad-arg"
  | "c02acc" :: opToks => match parseOp opToks with
    | some op => if op.accepted then "1" else "0"
    | none => "bad-arg"
  | "ref" :: sid :: ts :: did :: key :: opToks =>
    match parseOp opToks with
    | some op => match refWire op sid.toList ts.toList did.toList key.toList with
      | some f => hexOfBytes f
      | none => "none"
    | none => "bad-arg"
  | ["c03", sid, ts, did, frame] =>                -- C03: the command frame is bound to this login / clock / identity
    match bytesOfHex? sid, bytesOfHex? ts, bytesOfHex? did, bytesOfHex? frame with
    | some a, some b, some c, some f => if carries f a b c then "1" else "0"
    | _, _, _, _ => "bad-arg"
  | ["c09", sq, t2, le, nf, o1] =>
    match nat? nf with
    | some n => if c09ok (sq == "1") (t2 == "1") (le == "1") n o1 then "1" else "0"
    | none => "bad-arg"
  | ["c09", sq, t2, le, nf, o1, o2] =>
    match nat? nf with
    | some n => if c09ok (sq == "1") (t2 == "1") (le == "1") n (o1 ++ " " ++ o2) then "1" else "0"
    | none => "bad-arg"
  | ["c09base", replyEmpty, reported] => if baseOk (replyEmpty == "1") (reported == "1") then "1" else "0"
  | ["c08enc", "state", bg, on, p, l, o, a] =>     -- reference encoders of replies (C08)
    match bytesOfHex? bg, nat? p, nat? l, nat? o, nat? a with
    | some b, some p, some l, some o, some a => hexOfBytes (encodeState1 b { on := on == "1", power := p, timeLeft := l, timeOn := o, autoShutdown := a })
    | _, _, _, _, _ => "bad-arg"
  | ["c08exp", "state", on, p, l, o, a] =>
    match nat? p, nat? l, nat? o, nat? a with
    | some p, some l, some o, some a =>
      s!"state {if on == "1" then "ON" else "OFF"} {String.ofList (isoTime l)} {String.ofList (isoTime o)} {String.ofList (isoTime a)} {p} {tenthsS (ampsTenths p)}"
    | _, _, _, _ => "bad-arg"
  | ["c08enc", "shutter", bg, pos, dir] =>
    match bytesOfHex? bg, nat? pos, nat? dir with
    | some b, some p, some d => hexOfBytes (encodeShutter b { position := p, direction := d })
    | _, _, _ => "bad-arg"
  | ["c08exp", "shutter", pos, dir] =>
    match nat? pos, nat? dir with
    | some p, some d => s!"shutter {p} {directionName d}"
    | _, _ => "bad-arg"
  | ["c08enc", "thermo", bg, on, mode, fan, swing, temp, target, remote] =>
    match bytesOfHex? bg, nat? mode, nat? fan, nat? temp, nat? target, bytesOfHex? remote with
    | some b, some m, some f, some t, some g, some r =>
      hexOfBytes (encodeThermo b { on := on == "1", mode := m, fan := f, swing := swing == "1", tempTenths := t, target := g, remote := r })
    | _, _, _, _, _, _ => "bad-arg"
  | ["c08exp", "thermo", on, mode, fan, swing, temp, target, remote] =>
    match nat? mode, nat? fan, nat? temp, nat? target, bytesOfHex? remote with
    | some m, some f, some t, some g, some r =>
      s!"thermo {if on == "1" then "ON" else "OFF"} {modeName m} {fanName f} {tenthsS t} {g} {if swing == "1" then "ON" else "OFF"} {encText (r.map Char.ofNat)}"
    | _, _, _, _, _ => "bad-arg"
  | ["c08enc", "login", bg, sid] =>
    match bytesOfHex? bg, bytesOfHex? sid with
    | some b, some s => hexOfBytes (encodeLogin b s)
    | _, _ => "bad-arg"
  | "c05enc" :: "t1" :: bg :: rest => match bytesOfHex? bg, parseT1 rest with
    | some b, some d => hexOfBytes (encodeType1 b d)
    | _, _ => "bad-arg"
  | "c05exp" :: "t1" :: rest => match parseT1 rest with
    | some d => "device " ++ showDev (expectType1 d)
    | none => "bad-arg"
  | "c05enc" :: "shutter" :: bg :: rest => match bytesOfHex? bg, parseSh rest with
    | some b, some d => hexOfBytes (encodeShutterB b d)
    | _, _ => "bad-arg"
  | "c05exp" :: "shutter" :: rest => match parseSh rest with
    | some d => "device " ++ showDev (expectShutterB d)
    | none => "bad-arg"
  | "c05enc" :: "thermo" :: bg :: rest => match bytesOfHex? bg, parseTh rest with
    | some b, some d => hexOfBytes (encodeThermoB b d)
    | _, _ => "bad-arg"
  | "c05exp" :: "thermo" :: rest => match parseTh rest with
    | some d => "device " ++ showDev (expectThermoB d)
    | none => "bad-arg"
  | ["c06gate", h] => match bytesOfHex? h with
    | some m => if isBroadcast m then "1" else "0"
    | none => "bad-arg"
  | ["c11exists", z, now, h, m, hx, back] =>
    match parseZone z, int? now, int? h, int? m, bytesOfHex? hx with
    | some z, some n, some h, some m, some bs => if c11ok z n h m (ofLE bs) back (two h ++ ":" ++ two m) then "1" else "0"
    | _, _, _, _, _ => "bad-arg"
  | ["h2l", z, hx] =>                              -- Spec decoder: HH:MM shown by the LE32 instant in the zone
    match parseZone z, bytesOfHex? hx with
    | some z, some bs =>
      let w := wall z (ofLE bs)
      if bs.length == 4 then "ok " ++ two (w % 86400 / 3600) ++ ":" ++ two (w % 3600 / 60) else "bad-arg"
    | _, _ => "bad-arg"
  | ["c13", cur, mask, ahead, start, txt] =>        -- C13: the text is the rendering of an earliest run
    match nat? cur, nat? mask, text? start, text? txt with
    | some c, some m, some st, some t =>
      let days := daysOfMask m
      if days.isEmpty then (if t == renderRun .today st then "1" else "0")
      else
        let cands := [RunDay.today, RunDay.tomorrow] ++ days.map RunDay.next
        if cands.any (fun o => decide (IsEarliest c days (ahead == "1") o) && t == renderRun o st) then "1" else "0"
    | _, _, _, _ => "bad-arg"
  | ["c15", ir, st, md, tt, fan, sw, prev] =>       -- C15: expected outcome of build_command
    match parseIr ir, int? tt with
    | some (id, on, set), some t =>
      match specCommand id on set st md t fan sw (if prev == "-" then none else some prev) with
      | .text txt => "ok " ++ hexOfBytes (commandPayload txt) ++ " " ++ String.ofList (hexlify (le16 (commandPayload txt).length))
      | .refused => "raise RuntimeError"
      | .missing => "raise KeyError"
    | _, _ => "bad-arg"
  | ["c15caps", ir] =>
    match parseIr ir with
    | some (id, on, set) =>
      let rg := tempRange set
      s!"caps modes={",".intercalate (supportedModes set)} min={rg.1} max={rg.2} toggle={if on == 1 then 1 else 0} sepswing={if separateSwingIds.contains (String.ofList id) then 1 else 0} id={encText id}"
    | none => "bad-arg"
  | ["c15swing", ir, sw] =>
    match parseIr ir with
    | some (_, _, set) => match storedText set (if sw == "OFF" then cs!"FUN_d0" else cs!"FUN_d1") with
      | some txt => "ok " ++ hexOfBytes (commandPayload txt) ++ " " ++ String.ofList (hexlify (le16 (commandPayload txt).length))
      | none => "raise RuntimeError"
    | none => "bad-arg"
  | ["c16cmd", sid, ts, did, key, frame, ir, st, md, tt, fan, sw, prev] =>   -- C16: the IR frame carries the Spec's command for these settings
    match parseIr ir, int? tt, bytesOfHex? frame with
    | some (id, on, set), some t, some f =>
      match specCommand id on set st md t fan sw (if prev == "-" then none else some prev) with
      | .text txt => if refWire (.breezeCommand (commandPayload txt)) sid.toList ts.toList did.toList key.toList == some f then "1" else "0"
      | .refused => "refused"
      | .missing => "missing"
    | _, _, _ => "bad-arg"
  | ["c16swing", sid, ts, did, key, frame, ir, sw] =>
    match parseIr ir, bytesOfHex? frame with
    | some (_, _, set), some f =>
      match storedText set (if sw == "OFF" then cs!"FUN_d0" else cs!"FUN_d1") with
      | some txt => if refWire (.breezeCommand (commandPayload txt)) sid.toList ts.toList did.toList key.toList == some f then "1" else "0"
      | none => "missing"
    | _, _ => "bad-arg"
  | _ => "bad-op"

def main : IO Unit := do Wire.loop (← IO.getStdin) (← IO.getStdout) judge
