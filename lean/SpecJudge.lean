/-
specjudge — evaluates the *Spec* predicates the property theorems are stated with on concrete
observed behaviour.  Imports Spec only (plus the wire helpers), so it still builds when the
generated or hand-written model of the code does not.
-/
import Switcher.Spec.Frame
import Switcher.Spec.Devices
import Switcher.Spec.Days
import Switcher.Spec.Clock
import Switcher.Spec.Layout
import Switcher.Spec.Faults
import Switcher.Model.Wire
open Spec Wire

def csvNats (s : String) : List Nat := if s == "-" then [] else (s.splitOn ",").filterMap (·.toNat?)
def showNats (l : List Nat) : String := if l.isEmpty then "-" else ",".intercalate (l.map toString)

def parseOp : List String → Option Op
  | ["login1"] => some .login1
  | ["login2"] => some .login2
  | ["getstate1"] => some .getState1
  | ["getstate2"] => some .getState2
  | ["getschedules"] => some .getSchedules
  | ["stop"] => some .stop
  | ["control", on, m] => do pure (.control (on == "1") (← nat? m))
  | ["autooff", s] => do pure (.setAutoOff (← nat? s))
  | ["setname", chars, u] => do pure (.setName (← nat? chars) (← bytesOfHex? u))
  | ["delsched", slot] => do pure (.deleteSchedule (← nat? slot))
  | ["createsched", mask, a, b] => do pure (.createSchedule (← nat? mask) (← nat? a) (← nat? b))
  | ["setpos", p] => do pure (.setPosition (← nat? p))
  | ["breezecmd", payload] => do pure (.breezeCommand (← bytesOfHex? payload))
  | ["breezestatus", st, md, t, f, w] => do pure (.breezeStatus (← nat? st) (← nat? md) (← nat? t) (← nat? f) (← nat? w))
  | _ => none

def judge : List String → String
  | ["sig", hx] =>                      -- the protocol's four signature bytes of a byte string
    match bytesOfHex? hx with
    | some bs => hexOfBytes (sigBytes bs)
    | none => "bad-arg"
  | ["crc", init, hx] =>
    match bytesOfHex? hx, nat? init with
    | some bs, some i => toString (crc16 i bs)
    | _, _ => "bad-arg"
  | ["wf", hx] =>                       -- C01: WellFormedFrame
    match bytesOfHex? hx with
    | some bs => if wellFormedB bs then "1" else "0"
    | none => "bad-arg"
  | ["c19accept", cls, catOfType, observed] =>   -- class accepts the type iff the type's category is the class's
    match categoryOfClass cls with
    | some cat => if (observed == "1") == (catOfType == cat) then "1" else "0"
    | none => "bad-arg"
  | ["c19ports", ptype, udp, tcp] =>              -- category ports are those of the protocol type
    match nat? ptype, nat? udp, nat? tcp with
    | some p, some u, some c => if portsOfProtocol p == some (u, c) then "1" else "0"
    | _, _, _ => "bad-arg"
  | ["c19codes", codes] =>                        -- model codes: two bytes each, pairwise distinct
    let cs := codes.splitOn ","
    if cs.all isHex4 && cs.eraseDups.length == cs.length then "1" else "0"
  | ["c12enc", form, days, observed] =>          -- C12 encoding: mask of the set, two digits; reject empty / duplicates
    let l := csvNats days
    let mustRaise := l.isEmpty || (form != "single" && form != "set" && !decide l.Nodup)
    if mustRaise then (if observed == "raise" then "1" else "0")
    else if observed == String.ofList (hex2 (maskOf l)) then "1" else "0"
  | ["c12dec", n, observed] =>                    -- C12 decoding: exactly the days whose bit is set; reject outside 2..254
    match int? n with
    | some v =>
      if 2 ≤ v ∧ v ≤ 254 then (if observed == showNats (daysOfMask v.toNat) then "1" else "0")
      else (if observed == "raise" then "1" else "0")
    | none => "bad-arg"
  | ["c14", sm, em, observed] =>                  -- C14: duration text of (end - start) mod 24 h
    match nat? sm, nat? em, text? observed with
    | some a, some b, some t => if a < 1440 && b < 1440 && t == durationText (duration a b) then "1" else "0"
    | _, _, _ => "bad-arg"
  | ["hhmm", m] => match nat? m with
    | some v => String.ofList (hhmm v)
    | none => "bad-arg"
  | "c02" :: sid :: ts :: did :: key :: frame :: opToks =>   -- C02: the frame is the reference frame of this op
    match parseOp opToks, bytesOfHex? frame with
    | some op, some f =>
      if !op.accepted then "not-accepted"
      else if refWire op sid.toList ts.toList did.toList key.toList == some f then "1" else "0"
    | _, _ => "bad-arg"
  | "c02acc" :: opToks => match parseOp opToks with
    | some op => if op.accepted then "1" else "0"
    | none => "bad-arg"
  | "ref" :: sid :: ts :: did :: key :: opToks =>
    match parseOp opToks with
    | some op => match refWire op sid.toList ts.toList did.toList key.toList with
      | some f => hexOfBytes f
      | none => "none"
    | none => "bad-arg"
  | ["c03", sid, ts, did, frame] =>                -- C03: the command frame is bound to this login / clock / identity
    match bytesOfHex? sid, bytesOfHex? ts, bytesOfHex? did, bytesOfHex? frame with
    | some a, some b, some c, some f => if carries f a b c then "1" else "0"
    | _, _, _, _ => "bad-arg"
  | ["c09", sq, t2, le, nf, o1] =>
    match nat? nf with
    | some n => if c09ok (sq == "1") (t2 == "1") (le == "1") n o1 then "1" else "0"
    | none => "bad-arg"
  | ["c09", sq, t2, le, nf, o1, o2] =>
    match nat? nf with
    | some n => if c09ok (sq == "1") (t2 == "1") (le == "1") n (o1 ++ " " ++ o2) then "1" else "0"
    | none => "bad-arg"
  | ["c09base", replyEmpty, reported] => if baseOk (replyEmpty == "1") (reported == "1") then "1" else "0"
  | _ => "bad-op"

def main : IO Unit := do Wire.loop (← IO.getStdin) (← IO.getStdout) judge
