/-
specjudge — evaluates the *Spec* predicates the property theorems are stated with on concrete
observed behaviour.  Imports Spec only (plus the wire helpers), so it still builds when the
generated or hand-written model of the code does not.
-/
import Switcher.Spec.Frame
import Switcher.Spec.Devices
import Switcher.Model.Wire
open Spec Wire

def judge : List String → String
  | ["sig", hx] =>                      -- the protocol's four signature bytes of a byte string
    match bytesOfHex? hx with
    | some bs => hexOfBytes (sigBytes bs)
    | none => "bad-arg"
  | ["crc", init, hx] =>
    match bytesOfHex? hx, nat? init with
    | some bs, some i => toString (crc16 i bs)
    | _, _ => "bad-arg"
  | ["wf", hx] =>                       -- C01: WellFormedFrame
    match bytesOfHex? hx with
    | some bs => if wellFormedB bs then "1" else "0"
    | none => "bad-arg"
  | ["c19accept", cls, catOfType, observed] =>   -- class accepts the type iff the type's category is the class's
    match categoryOfClass cls with
    | some cat => if (observed == "1") == (catOfType == cat) then "1" else "0"
    | none => "bad-arg"
  | ["c19ports", ptype, udp, tcp] =>              -- category ports are those of the protocol type
    match nat? ptype, nat? udp, nat? tcp with
    | some p, some u, some c => if portsOfProtocol p == some (u, c) then "1" else "0"
    | _, _, _ => "bad-arg"
  | ["c19codes", codes] =>                        -- model codes: two bytes each, pairwise distinct
    let cs := codes.splitOn ","
    if cs.all isHex4 && cs.eraseDups.length == cs.length then "1" else "0"
  | _ => "bad-op"

def main : IO Unit := do Wire.loop (← IO.getStdin) (← IO.getStdout) judge
